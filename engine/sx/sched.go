package sx

import (
	"os"
	"fmt"
	"go/token"
	"go/types"
	"runtime"
	"sort"
	"strings"
	"sync"
)

// Bounded-schedule mode (DESIGN.md §4).
//
// Goroutines of the program under test are coroutines of the executor: each
// one runs on a host goroutine of its own, but exactly one of them holds the
// (implicit) token at any time, so execution stays sequential and — because
// every scheduling choice is an ordinary recorded decision (chooseN) —
// deterministic under replay.  A context switch can happen only immediately
// before a *visible operation* (channel operation, select, mutex, condition
// variable, wait group, once, atomic, go statement, timer operation) and when
// a goroutine blocks or ends.  Switching away from a goroutine that could have
// continued is a *preemption* and is bounded (MaxPreempt); switches at
// blocking points are free.  Timers are fired by the environment: either only
// when every goroutine is blocked (timers "idle", time passes only when
// nothing else can happen) or additionally at any scheduling point (timers
// "eager", costs nothing of the preemption budget but is bounded by the
// number of firings per path).
//
// A state in which goroutine 0 (the harness) is blocked, no goroutine is
// enabled and no timer can fire ends the path as *blocked* (deadlock).
type gstate int

const (
	gRunnable gstate = iota
	gBlockedChan
	gBlockedPred
	gDone
)

type goroutine struct {
	id     int
	resume chan struct{}
	state  gstate
	pred   func() bool
	what   string
	depth  int
	sel    *selectWait
	name   string
}

type timerObj struct {
	id      int
	c       *chanObj
	armed   bool
	ticker  bool
	fn      value // AfterFunc
	elem    types.Type
	stopped bool
	owner   *value
	when    int64 // logical expiry time (ns)
	period  int64 // tickers
}

type scheduler struct {
	ex          *Exec
	gs          []*goroutine
	cur         *goroutine
	preempts    int
	maxPreempt  int
	maxG        int
	fires       int
	maxFires    int
	eagerTimers bool
	// delayBounded: switches where a goroutine blocks or ends follow a fixed
	// round-robin order (next enabled goroutine after the current one); choosing
	// another one costs one unit of the same budget as a preemption.  Cheaper
	// than free choice at blocking points; the explored set is "all schedules
	// within <= budget deviations from round-robin".
	delayBounded bool
	atomicPts    bool
	timers      []*timerObj
	abort       interface{}
	dead        bool
	hostWG      sync.WaitGroup
	cond        map[*value][]*goroutine
	wg          map[*value]int
	once        map[*value]int
	switches    int
	// now is the logical clock (ns): it advances when a timer fires (to that
	// timer's expiry time); only the armed timer(s) with the earliest expiry
	// can fire, so durations matter in their relative order.
	now int64
}

var schedTrace = os.Getenv("VERIF_SCHED_TRACE") != ""

func (s *scheduler) tr(format string, a ...interface{}) {
	if schedTrace {
		fmt.Fprintf(os.Stderr, "  [sched g%d] "+format+"\n", append([]interface{}{s.cur.id}, a...)...)
	}
}

func newScheduler(ex *Exec) *scheduler {
	if schedTrace {
		fmt.Fprintln(os.Stderr, "=== new path")
	}
	s := &scheduler{ex: ex, maxPreempt: 1, maxG: 4, maxFires: 3, atomicPts: true,
		cond: map[*value][]*goroutine{}, wg: map[*value]int{}, once: map[*value]int{}}
	if v, ok := ex.params["sched_preempt"]; ok {
		s.maxPreempt = v
	}
	if v, ok := ex.params["sched_goroutines"]; ok {
		s.maxG = v
	}
	if v, ok := ex.params["sched_timer_fires"]; ok {
		s.maxFires = v
	}
	if v, ok := ex.params["sched_timers_eager"]; ok {
		s.eagerTimers = v != 0
	}
	if v, ok := ex.params["sched_delay_bounded"]; ok {
		s.delayBounded = v != 0
	}
	if v, ok := ex.params["sched_atomic_points"]; ok {
		s.atomicPts = v != 0
	}
	g0 := &goroutine{id: 0, resume: make(chan struct{}, 1), name: "harness"}
	s.gs = []*goroutine{g0}
	s.cur = g0
	ex.curG = g0
	return s
}

// shutdown ends all host goroutines of the path (called by runPath).
func (s *scheduler) shutdown() {
	s.dead = true
	for _, g := range s.gs[1:] {
		select {
		case g.resume <- struct{}{}:
		default:
		}
	}
	s.hostWG.Wait()
}

func (s *scheduler) enabled(g *goroutine) bool {
	switch g.state {
	case gRunnable:
		return true
	case gBlockedPred:
		return g.pred()
	}
	return false
}

func (s *scheduler) othersEnabled() []*goroutine {
	var r []*goroutine
	n := len(s.gs)
	// round-robin order starting after the current goroutine
	for i := 1; i <= n; i++ {
		g := s.gs[(s.cur.id+i)%n]
		if g != s.cur && s.enabled(g) {
			r = append(r, g)
		}
	}
	return r
}

// pickBlocked chooses which goroutine runs when the current one cannot.
func (s *scheduler) pickBlocked(n int, what string) int {
	if !s.delayBounded {
		return s.ex.chooseN(n, what)
	}
	if s.preempts >= s.maxPreempt {
		return 0
	}
	k := s.ex.chooseN(n, what)
	if k > 0 {
		s.preempts++
	}
	return k
}

func (s *scheduler) armedTimers() []*timerObj {
	if s.fires >= s.maxFires {
		return nil
	}
	var r []*timerObj
	for _, t := range s.timers {
		if !t.armed {
			continue
		}
		if len(r) > 0 && t.when > r[0].when {
			continue
		}
		if len(r) > 0 && t.when < r[0].when {
			r = r[:0]
		}
		r = append(r, t)
	}
	return r
}

// arm sets the timer to expire d nanoseconds from now (d < 0 counts as 0).
func (s *scheduler) arm(t *timerObj, d int64) {
	if d < 0 {
		d = 0
	}
	t.armed = true
	t.when = s.now + d
}

func durationOf(v value) int64 {
	if t, ok := v.(*Term); ok && t.IsConst() {
		return t.Int()
	}
	return 0 // unknown duration: may expire at once
}

// switchTo hands the token to next and waits until it comes back.
func (s *scheduler) switchTo(next *goroutine) {
	cur := s.cur
	if next == cur {
		return
	}
	ex := s.ex
	cur.depth = ex.depth
	s.cur = next
	ex.curG = next
	ex.depth = next.depth
	s.switches++
	s.tr("switch to g%d", next.id)
	next.resume <- struct{}{}
	<-cur.resume
	s.resumed(cur)
}

// resumed runs in a goroutine that has just been handed the token.
func (s *scheduler) resumed(g *goroutine) {
	if g.id == 0 {
		if s.abort != nil {
			a := s.abort
			s.abort = nil
			panic(a)
		}
		return
	}
	if s.dead {
		runtime.Goexit()
	}
}

// abortPath is called on a non-harness host goroutine when the path ends
// there (violation, engine error, crash of the program under test): the
// reason is re-raised on the harness goroutine, which owns the path.
func (s *scheduler) abortPath(r interface{}) {
	if tp, ok := r.(targetPanic); ok {
		// an uncaught panic in any goroutine crashes the program
		r = pathEnd{PathPanic, "panic in goroutine: " + show(tp.v)}
	}
	s.abort = r
	s.dead = true
	g0 := s.gs[0]
	s.cur = g0
	s.ex.curG = g0
	s.ex.depth = g0.depth
	g0.resume <- struct{}{}
}

// point is a scheduling point before a visible operation of the current
// goroutine: the current goroutine continues, or (within the preemption
// budget) another enabled goroutine runs first, or (eager timers) a timer
// fires first.
func (s *scheduler) point(what string) {
	for {
		others := s.othersEnabled()
		var timers []*timerObj
		if s.eagerTimers {
			timers = s.armedTimers()
		}
		if s.preempts >= s.maxPreempt {
			others = nil
		}
		n := 1 + len(others) + len(timers)
		if n == 1 {
			return
		}
		k := s.ex.chooseN(n, "schedule before "+what)
		switch {
		case k == 0:
			return
		case k <= len(others):
			s.preempts++
			s.switchTo(others[k-1])
			return
		default:
			s.fire(timers[k-1-len(others)])
			// the current goroutine has not moved: offer the choice again
		}
	}
}

// blockCurrent parks the current goroutine (its state has been set by the
// caller) and runs something else; returns when the goroutine is resumed.
func (s *scheduler) blockCurrent() {
	for {
		if s.enabled(s.cur) {
			// e.g. a timer fired below and completed our wait
			s.cur.state = gRunnable
			return
		}
		others := s.othersEnabled()
		if len(others) > 0 {
			var timers []*timerObj
			if s.eagerTimers {
				timers = s.armedTimers()
			}
			k := s.pickBlocked(len(others)+len(timers), "schedule (current goroutine blocked)")
			if k < len(others) {
				s.switchTo(others[k])
				if s.cur.state == gBlockedPred && !s.cur.pred() {
					continue // lost the race for the condition again
				}
				s.cur.state = gRunnable
				return
			}
			s.fire(timers[k-len(others)])
			continue
		}
		timers := s.armedTimers()
		if len(timers) == 0 {
			s.deadlock()
		}
		s.fire(timers[s.ex.chooseN(len(timers), "timer to fire (all goroutines blocked)")])
	}
}

func (s *scheduler) deadlock() {
	for _, t := range s.timers {
		if t.armed {
			// only the bound on timer firings stops the program here: the
			// schedule lies outside the explored bound, it is not a deadlock
			panic(pathEnd{PathAssumed, "timer-firing bound reached"})
		}
	}
	var parts []string
	for _, g := range s.gs {
		if g.state == gDone {
			continue
		}
		parts = append(parts, fmt.Sprintf("g%d(%s): %s", g.id, g.name, g.what))
	}
	sort.Strings(parts)
	s.tr("DEADLOCK %v", parts)
	panic(pathEnd{PathBlocked, "deadlock — every goroutine is blocked and no timer can fire: " + strings.Join(parts, "; ")})
}

// exitCurrent ends the current (non-harness) goroutine.
func (s *scheduler) exitCurrent() {
	g := s.cur
	g.state = gDone
	g.what = "exited"
	for {
		others := s.othersEnabled()
		if len(others) > 0 {
			next := others[s.pickBlocked(len(others), "schedule (goroutine exited)")]
			g.depth = 0
			s.cur = next
			s.ex.curG = next
			s.ex.depth = next.depth
			next.resume <- struct{}{}
			return
		}
		timers := s.armedTimers()
		if len(timers) == 0 {
			s.deadlock()
		}
		s.fire(timers[s.ex.chooseN(len(timers), "timer to fire (all goroutines blocked)")])
	}
}

// ---------- goroutines ----------

func (ex *Exec) schedSpawn(fn value, args []value, pos token.Pos) {
	s := ex.sched
	live := 0
	for _, g := range s.gs {
		if g.state != gDone {
			live++
		}
	}
	if live >= s.maxG {
		panic(pathEnd{PathUnwound, fmt.Sprintf("more than %d live goroutines (sched_goroutines)", s.maxG)})
	}
	g := &goroutine{id: len(s.gs), resume: make(chan struct{}, 1), name: fnName(fn)}
	s.gs = append(s.gs, g)
	s.hostWG.Add(1)
	go func() {
		defer s.hostWG.Done()
		<-g.resume
		if s.dead {
			return
		}
		defer func() {
			r := recover()
			if r == nil {
				return // normal end or Goexit
			}
			if s.dead {
				return
			}
			s.abortPath(r)
		}()
		ex.call(nil, pos, fn, args)
		s.exitCurrent()
	}()
	s.point("go statement")
}

func fnName(fn value) string {
	switch f := fn.(type) {
	case *closure:
		return f.Fn.String()
	case interface{ String() string }:
		return f.String()
	}
	return "?"
}

// ---------- channels ----------

func (ex *Exec) hasParkedRecv(c *chanObj) bool { return len(c.recvq) > 0 }
func (ex *Exec) hasParkedSend(c *chanObj) bool { return len(c.sendq) > 0 }

func removeWaiter(q []*waiter, w *waiter) []*waiter {
	for i, x := range q {
		if x == w {
			return append(q[:i:i], q[i+1:]...)
		}
	}
	return q
}

// complete finishes the parked operation w (one case of a parked goroutine).
func (s *scheduler) complete(w *waiter, v value, ok bool, closedSend bool) {
	sw := w.sel
	sw.fired = true
	sw.chosen = w.index
	sw.val = v
	sw.ok = ok
	sw.closedSend = closedSend
	for _, x := range sw.waiters {
		if x.send {
			x.c.sendq = removeWaiter(x.c.sendq, x)
		} else {
			x.c.recvq = removeWaiter(x.c.recvq, x)
		}
	}
	w.g.state = gRunnable
	w.g.what = ""
	s.tr("complete op of g%d on chan #%d (case %d)", w.g.id, w.c.id, w.index)
}

type parkCase struct {
	c    *chanObj
	send bool
	val  value
}

// park blocks the current goroutine on a set of channel operations.
func (s *scheduler) park(cases []parkCase, what string) *selectWait {
	g := s.cur
	sw := &selectWait{}
	for i, pc := range cases {
		if pc.c == nil {
			continue // nil channel: never ready
		}
		w := &waiter{g: g, c: pc.c, send: pc.send, val: pc.val, sel: sw, index: i}
		sw.waiters = append(sw.waiters, w)
		if pc.send {
			pc.c.sendq = append(pc.c.sendq, w)
		} else {
			pc.c.recvq = append(pc.c.recvq, w)
		}
	}
	g.state = gBlockedChan
	g.sel = sw
	g.what = what
	s.tr("park: %s", what)
	s.blockCurrent()
	if !sw.fired {
		panic(engineError{"goroutine resumed without a completed channel operation"})
	}
	g.sel = nil
	return sw
}

func (ex *Exec) doSend(c *chanObj, v value) {
	s := ex.sched
	if c == nil {
		s.park(nil, "send on nil channel")
	}
	if c.closed {
		panic(targetPanic{ex.runtimeError("send on closed channel")})
	}
	if len(c.recvq) > 0 {
		s.complete(c.recvq[0], v, true, false)
		return
	}
	if len(c.buf) < c.cap {
		c.buf = append(c.buf, v)
		return
	}
	sw := s.park([]parkCase{{c, true, v}}, "send on channel")
	if sw.closedSend {
		panic(targetPanic{ex.runtimeError("send on closed channel")})
	}
}

func (ex *Exec) doRecv(c *chanObj) (value, bool) {
	s := ex.sched
	if c == nil {
		s.park(nil, "receive from nil channel")
	}
	if len(c.buf) > 0 {
		v := c.buf[0]
		c.buf = c.buf[1:]
		if len(c.sendq) > 0 {
			w := c.sendq[0]
			c.buf = append(c.buf, w.val)
			s.complete(w, nil, true, false)
		}
		return v, true
	}
	if len(c.sendq) > 0 {
		w := c.sendq[0]
		v := w.val
		s.complete(w, nil, true, false)
		return v, true
	}
	if c.closed {
		return ex.zero(c.elem), false
	}
	sw := s.park([]parkCase{{c, false, nil}}, "receive from channel")
	return sw.val, sw.ok
}

func (ex *Exec) schedSend(c *chanObj, v value) {
	ex.sched.point("channel send")
	ex.doSend(c, v)
}

func (ex *Exec) schedRecv(c *chanObj) (value, bool) {
	ex.sched.point("channel receive")
	return ex.doRecv(c)
}

// schedWakeAll: the channel has just been closed.
func (ex *Exec) schedWakeAll(c *chanObj) {
	s := ex.sched
	for len(c.recvq) > 0 {
		s.complete(c.recvq[0], ex.zero(c.elem), false, false)
	}
	for len(c.sendq) > 0 {
		s.complete(c.sendq[0], nil, false, true)
	}
}

// schedBlockOn is kept for the sequential select loop; scheduled mode uses
// schedSelect instead.
func (ex *Exec) schedBlockOn(chans []*chanObj, what string) {
	panic(engineError{"schedBlockOn is not used in scheduled mode"})
}

// schedSelect implements select in scheduled mode.  Returns the chosen case
// (-1 = default), and for receive cases the value and ok flag.
func (ex *Exec) schedSelect(cases []parkCase, blocking bool) (int, value, bool) {
	s := ex.sched
	s.point("select")
	var ready []int
	for i, c := range cases {
		if c.send {
			if ex.canSend(c.c) {
				ready = append(ready, i)
			}
		} else if ex.canRecv(c.c) {
			ready = append(ready, i)
		}
	}
	if len(ready) > 0 {
		k := ready[0]
		if len(ready) > 1 {
			k = ready[ex.chooseN(len(ready), "select")]
		}
		if cases[k].send {
			ex.doSend(cases[k].c, cases[k].val)
			return k, nil, false
		}
		v, ok := ex.doRecv(cases[k].c)
		return k, v, ok
	}
	if !blocking {
		return -1, nil, false
	}
	sw := s.park(cases, "select")
	if sw.closedSend {
		panic(targetPanic{ex.runtimeError("send on closed channel")})
	}
	return sw.chosen, sw.val, sw.ok
}

// ---------- predicate waits: mutex, cond, wait group, once ----------

func (s *scheduler) waitUntil(pred func() bool, what string) {
	if pred() {
		return
	}
	g := s.cur
	g.state = gBlockedPred
	g.pred = pred
	g.what = what
	s.blockCurrent()
	g.pred = nil
	g.what = ""
}

func (ex *Exec) schedLock(c *value) {
	s := ex.sched
	s.point("mutex lock")
	s.waitUntil(func() bool { t := (*c).(*Term); return t.IsConst() && t.C == 0 }, "mutex lock")
	*c = ex.tt.Const((*c).(*Term).W, 1)
}

func (ex *Exec) schedUnlocked(c *value) {}

// ---------- timers ----------

func (s *scheduler) newTimer(elem types.Type, armed bool, ticker bool, fn value) *timerObj {
	t := &timerObj{id: len(s.timers), armed: armed, ticker: ticker, fn: fn, elem: elem}
	if fn == nil {
		t.c = s.ex.newChan(1, elem)
	}
	s.timers = append(s.timers, t)
	return t
}

// fire delivers one expiry of t (the environment's move).
func (s *scheduler) fire(t *timerObj) {
	s.fires++
	s.tr("fire timer %d", t.id)
	if t.when > s.now {
		s.now = t.when
	}
	if !t.ticker {
		t.armed = false
	} else {
		t.when = s.now + t.period
	}
	if t.fn != nil {
		// AfterFunc: runs the function in its own goroutine
		cur := s.cur
		_ = cur
		s.ex.spawnNoPoint(t.fn)
		return
	}
	c := t.c
	v := s.ex.zero(t.elem)
	if len(c.recvq) > 0 {
		s.complete(c.recvq[0], v, true, false)
		return
	}
	if len(c.buf) < c.cap {
		c.buf = append(c.buf, v)
	}
}

func (ex *Exec) spawnNoPoint(fn value) {
	s := ex.sched
	g := &goroutine{id: len(s.gs), resume: make(chan struct{}, 1), name: "timer func"}
	s.gs = append(s.gs, g)
	s.hostWG.Add(1)
	go func() {
		defer s.hostWG.Done()
		<-g.resume
		if s.dead {
			return
		}
		defer func() {
			r := recover()
			if r == nil || s.dead {
				return
			}
			s.abortPath(r)
		}()
		ex.call(nil, token.NoPos, fn, nil)
		s.exitCurrent()
	}()
}

// stopTimer implements Stop/Reset's "was it pending" with the Go 1.23+
// synchronous timer-channel semantics: after it returns no stale value can be
// received, and an expired-but-unreceived timer counts as still pending.
func (s *scheduler) stopTimer(t *timerObj) bool {
	s.tr("stop/reset timer %d armed=%v buffered=%d", t.id, t.armed, func() int { if t.c == nil { return 0 }; return len(t.c.buf) }())
	pending := t.armed
	t.armed = false
	if t.c != nil && len(t.c.buf) > 0 {
		t.c.buf = nil
		pending = true
	}
	return pending
}

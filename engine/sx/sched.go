package sx

import "go/token"

// Scheduled (multi-goroutine) mode.  Not yet delivered: the sequential
// executor handles channels and select for a single goroutine.
type goroutine struct {
	id int
}

type scheduler struct{}

func (ex *Exec) hasParkedRecv(c *chanObj) bool { return false }
func (ex *Exec) hasParkedSend(c *chanObj) bool { return false }
func (ex *Exec) schedSend(c *chanObj, v value) { panic(engineError{"scheduled mode not built"}) }
func (ex *Exec) schedRecv(c *chanObj) (value, bool) {
	panic(engineError{"scheduled mode not built"})
}
func (ex *Exec) schedWakeAll(c *chanObj) {}
func (ex *Exec) schedBlockOn(chans []*chanObj, what string) {
	panic(engineError{"scheduled mode not built"})
}
func (ex *Exec) schedSpawn(fn value, args []value, pos token.Pos) {
	panic(engineError{"scheduled mode not built"})
}

func (ex *Exec) schedLock(c *value)     { panic(engineError{"scheduled mode not built"}) }
func (ex *Exec) schedUnlocked(c *value) {}

// Command gosymx runs the solver-based checks of /verif.
//
//	gosymx check <property-id> <quick|thorough>
//	gosymx replay <replay-file>
package main

import (
	"encoding/json"
	"fmt"
	"os"
	"os/exec"
	"path/filepath"
	"sort"
	"strconv"
	"strings"
	"time"

	"gosymx/sx"
)

type TierCfg struct {
	Params   map[string]int `json:"params"`
	MaxSteps int            `json:"max_steps"`
	MaxDepth int            `json:"max_depth"`
	MaxEnum  int            `json:"max_enum"`
	MaxPaths int            `json:"max_paths"`
	Timeout  int            `json:"query_timeout_ms"`
	Skip     bool           `json:"skip"`
	MapRev   bool           `json:"map_reverse"`
	Bounds   string         `json:"bounds"`
}

type HarnessCfg struct {
	Name         string   `json:"name"`
	Pkg          string   `json:"pkg"`
	Files        []string `json:"files"`
	Entry        string   `json:"entry"`
	Covers       []string `json:"covers"`
	Quick        TierCfg  `json:"quick"`
	Thorough     TierCfg  `json:"thorough"`
	GoMode       string   `json:"go_mode"`
	AllowBlocked bool     `json:"allow_blocked"`
	AllowPanic   bool     `json:"allow_panic"`
	NativeReplay bool     `json:"native_replay"`
	ReinitGlobals bool    `json:"reinit_globals"`
	What         string   `json:"what"`
}

type PropCfg struct {
	Property    string       `json:"property"`
	Level       string       `json:"level"`
	Assumptions []string     `json:"assumptions"`
	Outside     []string     `json:"outside_claim"`
	Harnesses   []HarnessCfg `json:"harnesses"`
}

type KnownFinding struct {
	Property    string `json:"property"`
	Status      string `json:"status"` // known | fixed
	Harness     string `json:"harness"`
	Label       string `json:"label"`
	Where       string `json:"where"` // substring that must occur in the violation's notes ("" = any)
	Description string `json:"description"`
	Commit      string `json:"commit,omitempty"`
}

const verifDir = "/verif"

// repoDir is the tree under test: /repo (always, for the registered commands).
// VERIF_REPO points a run at a scratch worktree instead (used only to try the
// checks against seeded changes in parallel without touching /repo); such a
// run must also set VERIF_OUT so that it does not overwrite evidence/replays.
var (
	repoDir = "/repo"
	outDir  = verifDir
)

func init() {
	if r := os.Getenv("VERIF_REPO"); r != "" {
		repoDir = r
		outDir = os.Getenv("VERIF_OUT")
		if outDir == "" {
			fmt.Fprintln(os.Stderr, "VERIF_REPO needs VERIF_OUT")
			os.Exit(2)
		}
	}
}

func main() {
	if len(os.Args) < 2 {
		usage()
	}
	switch os.Args[1] {
	case "check":
		if len(os.Args) != 4 {
			usage()
		}
		os.Exit(check(os.Args[2], os.Args[3]))
	case "replay":
		if len(os.Args) != 3 {
			usage()
		}
		os.Exit(replay(os.Args[2]))
	default:
		usage()
	}
}

func usage() {
	fmt.Fprintln(os.Stderr, "usage: gosymx check <id> <quick|thorough> | gosymx replay <file>")
	os.Exit(2)
}

func readProp(id string) (*PropCfg, error) {
	data, err := os.ReadFile(filepath.Join(verifDir, "props", id+".json"))
	if err != nil {
		return nil, err
	}
	var pc PropCfg
	if err := json.Unmarshal(data, &pc); err != nil {
		return nil, fmt.Errorf("props/%s.json: %v", id, err)
	}
	return &pc, nil
}

func readKnown() []KnownFinding {
	data, err := os.ReadFile(filepath.Join(verifDir, "known_findings.json"))
	if err != nil {
		return nil
	}
	var f struct {
		Findings []KnownFinding `json:"findings"`
	}
	if err := json.Unmarshal(data, &f); err != nil {
		fmt.Fprintln(os.Stderr, "known_findings.json:", err)
		os.Exit(2)
	}
	return f.Findings
}

func pkgDir(pkgPath string) string {
	const mod = "github.com/mutagen-io/mutagen"
	return filepath.Join(repoDir, strings.TrimPrefix(strings.TrimPrefix(pkgPath, mod), "/"))
}

func loadFor(pc *PropCfg, scratch string) (*sx.Loaded, error) {
	byPkg := map[string]*sx.HarnessFiles{}
	var order []string
	for _, h := range pc.Harnesses {
		hf := byPkg[h.Pkg]
		if hf == nil {
			hf = &sx.HarnessFiles{PkgPath: h.Pkg, Dir: pkgDir(h.Pkg)}
			byPkg[h.Pkg] = hf
			order = append(order, h.Pkg)
		}
		for _, f := range h.Files {
			abs := filepath.Join(verifDir, f)
			dup := false
			for _, e := range hf.Files {
				if e == abs {
					dup = true
				}
			}
			if !dup {
				hf.Files = append(hf.Files, abs)
			}
		}
	}
	var hs []sx.HarnessFiles
	for _, p := range order {
		hs = append(hs, *byPkg[p])
	}
	return sx.Load(repoDir, hs, filepath.Join(verifDir, "harness/rt/rt_engine.go.tmpl"), scratch)
}

func check(id, tier string) int {
	t0 := time.Now()
	if tier != "quick" && tier != "thorough" {
		usage()
	}
	pc, err := readProp(id)
	if err != nil {
		fmt.Fprintln(os.Stderr, "error:", err)
		return 2
	}
	seed, _ := strconv.Atoi(os.Getenv("VERIF_SEED"))
	scratch, err := os.MkdirTemp("", "gosymx-"+id+"-")
	if err != nil {
		fmt.Fprintln(os.Stderr, "error:", err)
		return 2
	}
	defer os.RemoveAll(scratch)

	tl := time.Now()
	ld, err := loadFor(pc, scratch)
	if err != nil {
		fmt.Fprintln(os.Stderr, "error: loading /repo with harness overlay failed (the tree or the harness does not type-check):\n", err)
		writeEvidence(pc, tier, seed, nil, nil, time.Since(t0), []string{"load failed: " + err.Error()}, 0, 0)
		return 2
	}
	loadS := time.Since(tl).Seconds()
	fmt.Printf("[%s %s] loaded %d packages and built SSA in %.1fs\n", id, tier, len(ld.Prog.AllPackages()), loadS)

	known := readKnown()
	var results []*sx.HarnessResult
	var cfgs []HarnessCfg
	var problems []string // engine errors / vacuity
	var inconclusive []string
	var newViolations []*sx.Violation
	knownHit := map[int]bool{}
	nativeAgreed, nativeTotal := 0, 0

	for _, h := range pc.Harnesses {
		tc := h.Quick
		if tier == "thorough" {
			tc = mergeTier(h.Quick, h.Thorough)
		}
		if tc.Skip {
			continue
		}
		spec := &sx.HarnessSpec{
			Name: h.Name, Pkg: ld.Pkgs[h.Pkg], Entry: h.Entry, Params: tc.Params, Covers: h.Covers,
			Limits:  sx.Limits{MaxSteps: tc.MaxSteps, MaxDepth: tc.MaxDepth, MaxEnum: tc.MaxEnum},
			GoMode:  h.GoMode, MapRev: tc.MapRev, Timeout: tc.Timeout, MaxPaths: tc.MaxPaths, Samples: 3,
			AllowBlocked: h.AllowBlocked, AllowPanic: h.AllowPanic, ReinitGlobals: h.ReinitGlobals, Seed: int64(seed),
		}
		// wall-clock cap per harness: a run that does not finish (path explosion
		// on a changed tree, say) ends INCONCLUSIVE instead of running forever
		capMin := 20
		if tier == "thorough" {
			capMin = 90
		}
		if v, err := strconv.Atoi(os.Getenv("VERIF_HARNESS_CAP_MIN")); err == nil && v > 0 {
			capMin = v
		}
		spec.Deadline = time.Now().Add(time.Duration(capMin) * time.Minute)
		if h.NativeReplay && os.Getenv("VERIF_NO_NATIVE_DIFF") == "" {
			spec.NativeVectors = 16
			if tier == "thorough" {
				spec.NativeVectors = 48
			}
		}
		if w := os.Getenv("VERIF_WORKERS"); w != "" {
			spec.Workers, _ = strconv.Atoi(w)
		}
		if os.Getenv("VERIF_SOLVER") != "" {
			spec.Solver = os.Getenv("VERIF_SOLVER")
		}
		res := sx.RunHarness(ld.Prog, spec)
		results = append(results, res)
		cfgs = append(cfgs, h)
		fmt.Printf("[%s %s] harness %-28s paths=%d %v asserts=%d queries=%d (sat %d, unsat %d, unknown %d) solver=%.1fs wall=%.1fs\n",
			id, tier, h.Name, res.Paths, res.ByStatus, res.Asserts, res.Queries, res.SatN, res.UnsatN, res.UnknownN, res.SolverTime.Seconds(), res.Wall.Seconds())
		if os.Getenv("VERIF_VERBOSE") != "" {
			for _, n := range res.Notes {
				fmt.Printf("    note: %s\n", n)
			}
		}
		for _, e := range res.EngineErrors {
			problems = append(problems, h.Name+": "+e)
		}
		// translator validation: concrete models of sampled completed paths are
		// run through the natively compiled harness; the real build must agree
		// with the executor (no failed assertion, no failed assumption, same
		// sequence of choices) on every one of them.
		if spec.NativeVectors > 0 && len(res.Violations) == 0 && len(res.EngineErrors) == 0 {
			agreed, total, bad := nativeDifferential(pc, &h, tier, res, scratch)
			nativeAgreed += agreed
			nativeTotal += total
			if bad != "" {
				problems = append(problems, h.Name+": translator validation failed — the natively compiled harness disagrees with the executor: "+bad)
			}
			fmt.Printf("[%s %s] harness %-28s translator validation: %d/%d sampled paths agree with the native build\n", id, tier, h.Name, agreed, total)
		}
		if len(res.MissingCover) > 0 && len(res.Violations) == 0 && len(res.EngineErrors) == 0 {
			problems = append(problems, fmt.Sprintf("%s: vacuous — cover labels never reached: %v", h.Name, res.MissingCover))
		}
		if res.Paths > 0 && res.Asserts == 0 && len(res.EngineErrors) == 0 {
			problems = append(problems, h.Name+": vacuous — no assertion was reached on any path")
		}
		if len(res.Inconclusive) > 0 {
			inconclusive = append(inconclusive, fmt.Sprintf("%s: %d inconclusive paths, e.g. %s", h.Name, len(res.Inconclusive), res.Inconclusive[0]))
		}
		if res.Unwound > 0 {
			inconclusive = append(inconclusive, fmt.Sprintf("%s: %d paths hit an unwinding bound", h.Name, res.Unwound))
		}
		if res.Stopped != "" {
			inconclusive = append(inconclusive, h.Name+": "+res.Stopped)
		}
		for _, v := range res.Violations {
			v.Property = id
			if !v.ReplayedInEngine {
				continue // already reported as engine error
			}
			matched := false
			for ki, k := range known {
				if k.Property != id || k.Status != "known" {
					continue
				}
				if k.Harness != "" && k.Harness != h.Name {
					continue
				}
				if k.Label != "" && k.Label != v.Label {
					continue
				}
				if k.Where != "" && !strings.Contains(strings.Join(v.Notes, "\n"), k.Where) {
					continue
				}
				matched = true
				v.Known = k.Description
				knownHit[ki] = true
				break
			}
			if !matched {
				newViolations = append(newViolations, v)
			}
		}
	}

	// native replay of new violations where possible; write replay files
	exit := 0
	for i, v := range newViolations {
		hc := findHarness(pc, v.Harness)
		path := filepath.Join(outDir, "replays", fmt.Sprintf("%s-%s-%d.json", id, sanitize(v.Harness+"-"+v.Label), i))
		v.ReplayPath = path
		writeReplay(path, pc, hc, tier, v)
		if hc != nil && hc.NativeReplay {
			out, verdict := nativeReplay(pc, hc, path, scratch)
			v.ReplayedNatively = verdict
			if verdict == "not-reproduced" {
				problems = append(problems, fmt.Sprintf("%s: counterexample for %s reproduced in the engine but NOT natively — engine semantics bug; not reported as violation\n%s", v.Harness, v.Label, out))
				continue
			}
			writeReplay(path, pc, hc, tier, v)
		} else {
			v.ReplayedNatively = "n/a: harness uses environment stubs; replayed against SSA with model environment"
			writeReplay(path, pc, hc, tier, v)
		}
		fmt.Printf("VIOLATION property=%s replay=%s\n", id, path)
		fmt.Printf("    harness=%s kind=%s label=%q %s\n    inputs: %s\n    notes: %v\n", v.Harness, v.Kind, v.Label, v.Msg, fmtInputs(v), v.Notes)
		exit = 1
	}
	for ki, k := range known {
		if k.Property == id && k.Status == "known" && knownHit[ki] {
			fmt.Printf("KNOWN-FINDING: property=%s %s\n", id, k.Description)
		}
	}
	nviol := len(newViolations)
	if exit == 0 && len(problems) > 0 {
		for _, p := range problems {
			fmt.Fprintln(os.Stderr, "ENGINE-ERROR:", p)
		}
		exit = 2
	}
	if exit == 0 && len(inconclusive) > 0 {
		for _, p := range inconclusive {
			fmt.Fprintln(os.Stderr, "INCONCLUSIVE:", p)
		}
		exit = 3
	}
	writeEvidence(pc, tier, seed, cfgs, results, time.Since(t0), append(problems, inconclusive...), nviol, nativeAgreed)
	if exit == 0 {
		fmt.Printf("[%s %s] property held on everything explored (%.1fs)\n", id, tier, time.Since(t0).Seconds())
	}
	return exit
}

func mergeTier(q, t TierCfg) TierCfg {
	r := t
	if r.Params == nil {
		r.Params = map[string]int{}
	}
	for k, v := range q.Params {
		if _, ok := r.Params[k]; !ok {
			r.Params[k] = v
		}
	}
	if r.MaxSteps == 0 {
		r.MaxSteps = q.MaxSteps
	}
	if r.MaxDepth == 0 {
		r.MaxDepth = q.MaxDepth
	}
	if r.MaxEnum == 0 {
		r.MaxEnum = q.MaxEnum
	}
	if r.Timeout == 0 {
		r.Timeout = q.Timeout
	}
	if r.Bounds == "" {
		r.Bounds = q.Bounds
	}
	return r
}

func findHarness(pc *PropCfg, name string) *HarnessCfg {
	for i := range pc.Harnesses {
		if pc.Harnesses[i].Name == name {
			return &pc.Harnesses[i]
		}
	}
	return nil
}

func sanitize(s string) string {
	var sb strings.Builder
	for _, c := range s {
		if c >= 'a' && c <= 'z' || c >= 'A' && c <= 'Z' || c >= '0' && c <= '9' || c == '-' || c == '_' {
			sb.WriteRune(c)
		} else {
			sb.WriteByte('_')
		}
	}
	r := sb.String()
	if len(r) > 80 {
		r = r[:80]
	}
	return r
}

func fmtInputs(v *sx.Violation) string {
	var parts []string
	for _, in := range v.Inputs {
		l := in.Label
		if l == "" {
			l = in.Name
		}
		parts = append(parts, fmt.Sprintf("%s=%d", l, in.Value))
		if len(parts) > 40 {
			parts = append(parts, "…")
			break
		}
	}
	return strings.Join(parts, " ")
}

type replayFile struct {
	Property string         `json:"property"`
	Harness  string         `json:"harness"`
	Pkg      string         `json:"pkg"`
	Entry    string         `json:"entry"`
	Files    []string       `json:"files"`
	Tier     string         `json:"tier"`
	Params   map[string]int `json:"params"`
	*sx.Violation
}

func writeReplay(path string, pc *PropCfg, hc *HarnessCfg, tier string, v *sx.Violation) {
	rf := replayFile{Property: pc.Property, Harness: v.Harness, Tier: tier, Violation: v}
	if hc != nil {
		rf.Pkg, rf.Entry, rf.Files = hc.Pkg, hc.Entry, hc.Files
		tc := hc.Quick
		if tier == "thorough" {
			tc = mergeTier(hc.Quick, hc.Thorough)
		}
		rf.Params = tc.Params
	}
	data, _ := json.MarshalIndent(rf, "", " ")
	os.MkdirAll(filepath.Dir(path), 0o755)
	os.WriteFile(path, data, 0o644)
}

// nativeReplay compiles the harness natively (go test -overlay) and runs the
// recorded vector against the real build.
func nativeReplay(pc *PropCfg, hc *HarnessCfg, vector string, scratch string) (string, string) {
	text, errText := nativeRun(pc, hc, scratch, "VERIF_REPLAY="+vector, "verifRunNative")
	if errText != "" {
		return errText, "n/a: " + errText
	}
	for _, line := range strings.Split(text, "\n") {
		if strings.HasPrefix(line, "VERIF-NATIVE-RESULT ") {
			r := strings.TrimPrefix(line, "VERIF-NATIVE-RESULT ")
			switch {
			case strings.HasPrefix(r, "assert"), strings.HasPrefix(r, "panic"):
				return text, "reproduced"
			default:
				return text, "not-reproduced"
			}
		}
	}
	return text, "n/a: native replay did not run: " + firstLines(text, 3)
}

// nativeRun compiles the harness natively (go test -overlay) and runs the
// given runner (verifRunNative / verifRunNativeBatch) on its entry function.
func nativeRun(pc *PropCfg, hc *HarnessCfg, scratch string, env string, runner string) (string, string) {
	dir := pkgDir(hc.Pkg)
	repl := map[string]string{}
	pkgName := ""
	for _, f := range hc.Files {
		abs := filepath.Join(verifDir, f)
		repl[filepath.Join(dir, "zz_verif_"+filepath.Base(f))] = abs
		if pkgName == "" {
			src, _ := os.ReadFile(abs)
			for _, line := range strings.Split(string(src), "\n") {
				if strings.HasPrefix(line, "package ") {
					pkgName = strings.TrimSpace(strings.TrimPrefix(line, "package "))
					break
				}
			}
		}
	}
	// other harness files of the same package in this property must be present too
	for _, oh := range pc.Harnesses {
		if oh.Pkg != hc.Pkg {
			continue
		}
		for _, f := range oh.Files {
			repl[filepath.Join(dir, "zz_verif_"+filepath.Base(f))] = filepath.Join(verifDir, f)
		}
	}
	rt, err := os.ReadFile(filepath.Join(verifDir, "harness/rt/rt_native.go.tmpl"))
	if err != nil {
		return "", err.Error()
	}
	rtFile := filepath.Join(scratch, "native_rt.go")
	os.WriteFile(rtFile, []byte(strings.Replace(string(rt), "package PKGNAME", "package "+pkgName, 1)), 0o644)
	repl[filepath.Join(dir, "zz_verif_rt.go")] = rtFile
	testFile := filepath.Join(scratch, "native_test_"+runner+"_"+sanitize(hc.Entry)+".go")
	os.WriteFile(testFile, []byte(fmt.Sprintf("package %s\n\nimport \"testing\"\n\nfunc TestVerifNativeReplay(t *testing.T) { %s(%s) }\n", pkgName, runner, hc.Entry)), 0o644)
	repl[filepath.Join(dir, "zz_verif_native_test.go")] = testFile
	ov, _ := json.Marshal(map[string]interface{}{"Replace": repl})
	ovFile := filepath.Join(scratch, "overlay-"+runner+"-"+sanitize(hc.Entry)+".json")
	os.WriteFile(ovFile, ov, 0o644)
	cmd := exec.Command("go", "test", "-vet=off", "-count=1", "-overlay", ovFile, "-run", "^TestVerifNativeReplay$", "-v", hc.Pkg)
	cmd.Dir = repoDir
	cmd.Env = append(os.Environ(), env, "GOFLAGS=-mod=mod", "GOPROXY=off", "GOTOOLCHAIN=local")
	out, _ := cmd.CombinedOutput()
	return string(out), ""
}

// nativeDifferential runs the sampled vectors of a stub-free harness natively.
func nativeDifferential(pc *PropCfg, hc *HarnessCfg, tier string, res *sx.HarnessResult, scratch string) (agreed, total int, bad string) {
	type vec struct {
		Inputs  []sx.InputRec  `json:"inputs"`
		Choices []uint64       `json:"choices"`
		Params  map[string]int `json:"params"`
	}
	tc := hc.Quick
	if tier == "thorough" {
		tc = mergeTier(hc.Quick, hc.Thorough)
	}
	var vecs []vec
	for _, v := range res.NativeVecs {
		if v != nil {
			vecs = append(vecs, vec{v.Inputs, v.Choices, tc.Params})
		}
	}
	if len(vecs) == 0 {
		return 0, 0, ""
	}
	file := filepath.Join(scratch, "batch-"+sanitize(hc.Name)+".json")
	data, _ := json.Marshal(vecs)
	os.WriteFile(file, data, 0o644)
	out, _ := nativeRun(pc, hc, scratch, "VERIF_REPLAY_BATCH="+file, "verifRunNativeBatch")
	total = len(vecs)
	seen := 0
	for _, line := range strings.Split(out, "\n") {
		if !strings.HasPrefix(line, "VERIF-NATIVE-BATCH ") {
			continue
		}
		seen++
		f := strings.SplitN(strings.TrimPrefix(line, "VERIF-NATIVE-BATCH "), " ", 2)
		if len(f) == 2 && f[1] == "ok" {
			agreed++
		} else if bad == "" {
			bad = "vector " + line + " (inputs " + fmt.Sprint(vecs[min(seen-1, len(vecs)-1)].Inputs) + ")"
		}
	}
	if seen != total && bad == "" {
		bad = fmt.Sprintf("native batch reported %d of %d vectors: %s", seen, total, firstLines(out, 6))
	}
	return
}

func firstLines(s string, n int) string {
	lines := strings.Split(s, "\n")
	if len(lines) > n {
		lines = lines[:n]
	}
	return strings.Join(lines, " | ")
}

func replay(path string) int {
	data, err := os.ReadFile(path)
	if err != nil {
		fmt.Fprintln(os.Stderr, err)
		return 2
	}
	var rf replayFile
	if err := json.Unmarshal(data, &rf); err != nil {
		fmt.Fprintln(os.Stderr, err)
		return 2
	}
	pc, err := readProp(rf.Property)
	if err != nil {
		fmt.Fprintln(os.Stderr, err)
		return 2
	}
	hc := findHarness(pc, rf.Harness)
	if hc == nil {
		fmt.Fprintln(os.Stderr, "unknown harness", rf.Harness)
		return 2
	}
	fmt.Printf("replaying %s harness %s (%s) label %q\ninputs: %s\nchoices: %v\nnotes: %v\n", rf.Property, rf.Harness, rf.Entry, rf.Label, fmtInputs(rf.Violation), rf.Choices, rf.Notes)
	if !hc.NativeReplay {
		fmt.Println("harness uses environment stubs: native replay not available; the vector above replays in the engine's concrete mode during `check`.")
		return 0
	}
	scratch, _ := os.MkdirTemp("", "gosymx-replay-")
	defer os.RemoveAll(scratch)
	out, verdict := nativeReplay(pc, hc, path, scratch)
	fmt.Println(out)
	fmt.Println("native replay:", verdict)
	if verdict == "reproduced" {
		return 1
	}
	return 0
}

// ---------- evidence ----------

func writeEvidence(pc *PropCfg, tier string, seed int, cfgs []HarnessCfg, results []*sx.HarnessResult, wall time.Duration, problems []string, nviol int, nativeAgreed int) {
	level := pc.Level
	if level == "" {
		level = "model_checking"
	}
	cov := map[string]interface{}{}
	paths, decisions, queries, asserts, symAsserts, nontrivial, unknown := 0, 0, 0, 0, 0, 0, 0
	var solverS float64
	var samples []interface{}
	var hsum []interface{}
	funcs := map[string]bool{}
	stubs := map[string]bool{}
	covers := map[string]int{}
	for i, r := range results {
		paths += r.Paths
		decisions += r.Decisions
		queries += r.Queries
		asserts += r.Asserts
		symAsserts += r.SymAsserts
		nontrivial += r.NontrivialPaths
		unknown += r.UnknownN
		solverS += r.SolverTime.Seconds()
		for _, s := range r.Samples {
			s["harness"] = r.Name
			samples = append(samples, s)
		}
		for _, f := range r.Functions {
			funcs[f] = true
		}
		for _, f := range r.StubsUsed {
			stubs[f] = true
		}
		for k, v := range r.Covers {
			covers[r.Name+":"+k] += v
		}
		tc := cfgs[i].Quick
		if tier == "thorough" {
			tc = mergeTier(cfgs[i].Quick, cfgs[i].Thorough)
		}
		hsum = append(hsum, map[string]interface{}{
			"harness": r.Name, "entry": cfgs[i].Entry, "what": cfgs[i].What, "bounds": tc.Bounds, "params": tc.Params,
			"paths": r.Paths, "paths_by_status": r.ByStatus, "assertion_checks": r.Asserts, "solver_queries": r.Queries,
			"sat": r.SatN, "unsat": r.UnsatN, "unknown": r.UnknownN, "solver_s": round2(r.SolverTime.Seconds()),
			"wall_s": round2(r.Wall.Seconds()), "max_decisions_on_a_path": r.MaxTrace, "terms": r.Terms,
			"violations": len(r.Violations), "notes": r.Notes,
		})
	}
	if len(samples) == 0 {
		samples = append(samples, map[string]interface{}{"note": "no path with a symbolic assertion completed in this run"})
	}
	// encoded functions: keep those of the repository and a count of the rest
	var repoFuncs []string
	other := 0
	for f := range funcs {
		if strings.Contains(f, "mutagen-io/mutagen") {
			repoFuncs = append(repoFuncs, f)
		} else {
			other++
		}
	}
	sort.Strings(repoFuncs)
	var stubList []string
	for s := range stubs {
		stubList = append(stubList, s)
	}
	sort.Strings(stubList)
	cov["states"] = paths
	cov["transitions"] = decisions
	cov["traces_validated_against_impl"] = nativeAgreed
	cov["traces_validated_rule"] = "stub-free harnesses only: a concrete model of the path condition of each sampled completed path (inputs and choices) is run through the same harness compiled natively against the real build (go test -overlay); counted when the native run completes without failed assertion/assumption and consumes the same choices"
	cov["samples"] = samples
	cov["evaluations"] = paths
	cov["distinct_nontrivial"] = nontrivial
	cov["rule"] = "one evaluation = one feasible execution path of a harness through the real SSA of /repo (each path covers every input value satisfying its path condition); distinct = distinct decision vectors; non-trivial = the path has a non-empty symbolic path condition or discharged at least one symbolic assertion query"
	cov["exhaustive"] = false
	cov["explanation"] = "bounded symbolic execution of go/ssa built from /repo's current tree; every assertion on every feasible path is discharged by an SMT query (unsat = holds for all inputs within the bounds)"
	cov["functions_encoded"] = repoFuncs
	cov["other_functions_executed_from_source_or_intrinsic"] = other
	cov["stubs"] = stubList
	cov["harnesses"] = hsum
	cov["solver_queries"] = queries
	cov["solver_unknown"] = unknown
	cov["solver_s"] = round2(solverS)
	cov["assertion_checks"] = asserts
	cov["symbolic_assertion_queries"] = symAsserts
	cov["cover_labels"] = covers
	cov["problems"] = problems
	cov["outside_claim"] = pc.Outside
	ev := map[string]interface{}{
		"property_id": pc.Property, "tier": tier, "seed": seed, "level": level,
		"coverage": cov, "assumptions": pc.Assumptions, "wall_s": round2(wall.Seconds()), "violations": nviol,
	}
	data, _ := json.MarshalIndent(ev, "", " ")
	os.MkdirAll(filepath.Join(outDir, "evidence"), 0o755)
	os.WriteFile(filepath.Join(outDir, "evidence", pc.Property+".json"), data, 0o644)
}

func round2(f float64) float64 { return float64(int(f*100+0.5)) / 100 }
